"""Writes MANIFEST.json from the table below (kept in one place so it stays valid)."""
import json, os
V = os.path.dirname(os.path.dirname(os.path.abspath(__file__)))
HOOK_COMMITS = ["c828291"]
CHECKS = {
 "C01": dict(
    technique="Coq proof (std++ gmap algebra: commutative-monoid fold, induction over permutations and combination trees) + vm_compute correspondence with merge_results",
    text="Full proof: the Gallina transcription of merge_results/add_results is proved equal to a union_with form, for which clamped-sum, OR, max-length, order/grouping independence (every permutation and every binary tree), identity and monotonicity are theorems for all record lists; the model is tied to the code by running both on generated record lists and trees (incl. saturating sums, unequal vectors) on every run.",
    note="Trusted: Coq kernel, vm_compute for the correspondence evaluation, std++; the Rust harness and Python differ; BTreeMap/FxHashMap modelled as finite maps, u64 arithmetic written out.  No axioms (Print Assumptions: closed).",
    ref="6/C01"),
 "C04": dict(
    technique="Coq proof (byte-level transcription of parse_lcov; per-record simulation lemmas, fold invariant, order-free declarative meaning) + vm_compute correspondence on well-formed and malformed streams",
    text="Full proof outside one recorded known-finding class: for every well-formed tracefile (any record order, duplicate DA/BRDA, negative counts, BRDA '-'/0/n, leading zeros, LF/CRLF per line, TN/LF/LH/VER/MCDC and unused S/D/F/B keys, names over all bytes but CR/LF) in which no FNDA precedes the FN of its function, the Gallina transcription of parse_lcov returns one record per section whose lines (clamped sums), branch vectors (indexed by branch number, OR of taken>0) and functions (start, executed iff some FNDA is non-zero) are exactly what the records say; the meaning is proved order-free and unique; with branch parsing off no branch data is produced for any byte string; the parser model never panics and never runs out of fuel on any byte string. The model is tied to the code by running both (and the record-level spec, and an independent Python reading) on generated files on every run.",
    note="Trusted: Coq kernel, vm_compute (correspondence), std++; harness and Python renderer/reference; Peekable::take_while consumption and release-mode wrapping folds modelled by hand; String::from_utf8_lossy not modelled (names compared on valid UTF-8 only). Known finding: FNDA before FN rejects the file. No axioms.",
    ref="6/C04"),
 "C05": dict(
    technique="Coq proof (output_lcov renders a well-formed record file; C04 soundness + uniqueness of the meaning give parse(output rs) = rs) + vm_compute correspondence of the in-process round trip + CLI chains",
    text="Full proof: for every result list whose paths/function names contain no CR/LF, numbers in range and non-empty branch vectors, the Gallina parse_lcov applied to the Gallina output_lcov returns exactly the same list (with --branch; without it the same minus branches), the re-exported report is byte-identical, and k round trips change nothing; decimal printing is proved to be read back exactly. Tied to the code by running output_lcov/parse_lcov k times in-process against the model and by chaining the CLI on its own reports.",
    note="Trusted: Coq kernel, vm_compute (correspondence), std++; harness; hash-map iteration order not modelled (reports compared as record sets); demangling off; path-rewriting side of the property is covered under C11. No axioms.",
    ref="6/C05"),
 "C06": dict(
    technique="Coq proof (composition: stage = records of the aggregated map; add_results over concatenated stages = add_results over all inputs, by associativity of merge; induction over arbitrarily nested shard trees) + CLI differential over random nested partitions",
    text="Full proof at the level of aggregated maps: for every partition of the inputs into shards and every nesting depth, aggregating the stage outputs equals aggregating all inputs directly (full equality, start lines included), given that each stage's lcov report is re-imported unchanged (C05, with --branch at every stage). The CLI differential runs grcov on 2-6 .info/.xml inputs directly and through random nested shard trees and compares the reports as record sets. Known finding: without --branch, JaCoCo branch data survives a direct run but not an intermediate lcov stage.",
    note="Trusted: Coq kernel; C01/C05 developments; CLI runs and the Python record reader. The composition theorem assumes the stage round trip (proved in C05 for the model). No axioms.",
    ref="6/C06"),
 "C20": dict(
    technique="Coq proof of grcov's tool glue (trace-returning model of llvm_profiles_to_lcov / consumer branches; std++ list/Permutation reasoning reusing C01's add_results algebra) + vm_compute correspondence on recorded tool results + differential run against real gcc/gcov 12 and recording llvm-profdata/llvm-cov stand-ins through the grcov CLI",
    text="Partial: proved for all tool behaviours - one merge call whose stdin is exactly the discovered profile occurrences (no duplicates introduced, order-free); each selected binary exported once per merged profile; failing or unparsable exports dropped without affecting the others; the report is the C01 aggregation of the exported data in any order; the GCC worker's report is the aggregation of what gcov wrote, for every split over workers and lock order and both latch regimes. Equality with the toolchain's own account (gcov's per-line counts and function flags) is validated differentially against gcov 12, for thread counts 1/2/4; the tools themselves are not modelled.",
    note="Trusted: Coq kernel, vm_compute, gcc/gcov 12, the driver's gcov/lcov readers, the stub tools. The ignore walker, infer::is_app and the file system enter as data. The SingleFile latch branch is proved but unreachable with gcov 12. Two known findings (duplicate JSON line entries; walker standard filters). No axioms.",
    ref="6/C20"),
 "C02": dict(
    technique="Coq proof (labelled transition system of producer / N workers / main over a bounded FIFO; one inductive invariant over the 18 labels: conservation, stop-marker accounting, map = aggregation of merged batches) + replay of real hook event logs through the LTS under vm_compute + end-to-end report oracle",
    text="Proof for the transition-system model, for every number of workers N >= 1, every capacity, every item list and every interleaving: no item is lost or duplicated at any point; the map is the aggregation of the merged batches; an execution that ends with status 0 has merged exactly the accepted items once each, so its report observably equals the C01 aggregation of the per-artifact results, independently of N, interleaving and input order (difference confined to disputed start lines). Partial for the runtime: the model's atomic steps (crossbeam channel = linearizable FIFO, Mutex = mutual exclusion, spawn/join) are trusted and sampled by trace validation: every run's per-thread hook log is scheduled into LTS labels and replayed by Coq (must end in MExit 0 with merged set = item set and map = report), on inputs spread over directories, zips and plain arguments, threads 1-16, shuffled arguments, perturbed schedules.",
    note="Trusted: Coq kernel, vm_compute (trace replay); hooks H1/H2 (cfg mozilla_grcov_verif); the Python scheduler (its output is re-checked by Coq); crossbeam/Mutex/thread semantics; only info artifacts are traced (xml/gcno use the same loop; gcno via external gcov is covered under C20). No axioms.",
    ref="6/C02"),
 "C07": dict(
    technique="Coq proof (same LTS with faults: strictly decreasing measure for termination, enabledness analysis for no-stuck-state, exit-status invariant) + fault-injected real runs under a wall-clock limit replayed through the LTS",
    text="Proof for the model, for all inputs, fault sets, N, capacities and interleavings: every step decreases a natural-number measure (no infinite execution); with main not holding a receiver (the repaired code) every reachable non-exited state can step (no hang); a dead producer or worker never goes with exit status 0; without deaths the report is the aggregation of the accepted inputs only (rejected inputs contribute nothing). The stuck state of the pinned code (main kept a receiver) is exhibited as a theorem, was reproduced on the real binary as a hang and repaired by a fix: commit. Partial for the runtime: OS scheduling, crossbeam's disconnect wake-up, panics in main/HTML threads or external tools are not modelled; fault plans (reject, panic outside/inside the lock, one/many/all workers, really malformed inputs, item counts around the capacity boundary) run under a 20 s limit and their hook logs are replayed by Coq (same exit status, same deaths).",
    note="Trusted: Coq kernel, vm_compute; hooks H1-H3; Python scheduler (re-checked by Coq); crossbeam/Mutex/thread/process semantics; 20 s stands in for 'forever'. No axioms.",
    ref="6/C07"),
 "C03": dict(
    technique="Coq proof (generic line-array lemma, fold over branch quadruples, gmap/list_to_map reasoning, Permutation of the covdir tree's files) + vm_compute correspondence of the Gallina encoders with the real output_* functions + independent Python readers of all 10 output types",
    text="Partial proof at the abstract-document level. coveralls(+) lines (all counts to 2^64-1), branches and functions; covdir arrays and tree file set; Cobertura class lines and conditions; HTML file rows; Markdown counts; files. Each is a theorem decode(encode) = data for all records, with the guards the known findings force made explicit (count < 2^63 for covdir/HTML, branch lines having a count for Cobertura) and _refuted witnesses. lcov bytes (proved separately under C05), ActiveData-ETL, Cobertura methods, Markdown ranges, HTML indexes and all JSON/XML/HTML serialisation are validated on every run by decoding the real reports of generated result sets with independent readers and comparing with the input and with the model.",
    note="Trusted: Coq kernel, vm_compute, serde_json/quick-xml/Tera/tabled, std::path splitting (driver), harness, Python readers (self-tested by seeded corruptions). Domain: lines 1..200 generated (theorems: any line >= 1 < 2^32-1), distinct plain paths, printable names, non-empty branch vectors, HTML sources present. Known findings: i64 cast, Cobertura branch-only lines, HTML root index overwritten, HTML omits absolute paths. No axioms.",
    ref="6/C03"),
 "C13": dict(
    technique="Coq proof (tree induction for directory sums, fold projections, QArith for rates: Qfloor-based rounding lemmas) + vm_compute correspondence of the Gallina statistics with the real reports + independent Python readers",
    text="Proof for all integer consistency: lcov LF/LH/BRF/BRH/FNF/FNH; covdir file stats; directory = sum of all files below up to the root; covered <= total; covered + missed = total; Cobertura and HTML sums; badge/coverage.json from the same totals. Proof for the zero-total decision of every format. Rates modelled as exact rationals plus the format's rounding: in range, within half a unit of the printed precision, finite - refuted for ActiveData (known finding; the Markdown half was repaired). Partial: IEEE rounding is not modelled; printed decimals are compared with the exact rational on the real outputs (10^-p).",
    note="Trusted: as C03. Known findings: ActiveData null rate at total 0, i64 cast, HTML root index overwritten. No axioms.",
    ref="6/C13"),
 "C18": dict(
    technique="Coq proof (byte-level induction: strict standard decoders invert the three escapers; scanner/tokenizer non-interference for documents with holes) + vm_compute correspondence with quick-xml escape, serde_json and tera escape_html + parser-based oracle on real Cobertura/Coveralls/covdir/ActiveData/HTML reports against a benign report of the same shape + template-hole extraction from src/templates",
    text="Proof about the escaping discipline, for all byte strings: decode(escape s)=s for XML, JSON and HTML with strict decoders written from the standards; escaped text contains no raw < > quote (markup) / control byte (JSON), every & starts a produced reference; the end-of-hole scanner returns exactly the escaped name; a report modelled as fixed text with well-placed holes has a token skeleton independent of the names (XML, HTML, JSON), and a quick-xml start tag's skeleton is its tag and attribute names; every unescaped template hole carries only constants/options/numbers except parent.0|safe of the pinned template (refuted with a byte-level witness, proved for the repaired template; repaired in /repo by a fix: commit). Partial: the escapers are library code, modelled and compared byte for byte on generated strings each run; which holes Tera escapes and the writers' framing are validated on real reports (expat/json/html.parser, exact names, equality with the benign report modulo renaming), not modelled.",
    note="Trusted: Coq kernel, vm_compute, Tera template expansion, quick-xml Writer / serde_json framing (checked by parsers on every report), Python expat/json/html.parser, harness. Domain: printable Unicode, path components valid on the file system; --abs-link-prefix/BULMA_VERSION/config trusted; exact function names compared with demangling off. No axioms.",
    ref="6/C18"),
 "C16": dict(
    technique="Coq proof (induction over the source lines: loop flag recurrence = declarative start..stop region) + vm_compute correspondence with FileFilter::create and the filter application",
    text="Full proof for the decision logic: for every sequence of source lines (each abstracted to the six regex verdicts), every coverage record and every line index inside the file, the line count is removed iff the line matches the line marker or lies in a start(inclusive)..stop(exclusive) region, independently the same for branches; numbers outside the file and all functions are untouched; no option or unreadable source = identity. Tied to the code by running FileFilter::create on generated sources (all marker placements, option subsets, LF/CRLF) and comparing filters and resulting records with the model and with an independent reading of the property.",
    note="Trusted: Coq kernel, vm_compute (correspondence), regex crate (verdicts enter the model as data), harness re-implementation of split/strip (cross-checked by the Python reference), files < 2^32 lines. No axioms.",
    ref="6/C16"),
}
def main():
    m = {
     "version": 1,
     "setup_cmd": "bin/setup",
     "hooks": {"guard": "mozilla_grcov_verif",
               "enable": "RUSTFLAGS=\"--cfg mozilla_grcov_verif\" cargo build --release --offline",
               "baseline_off_cmd": "cd /repo && cargo test --workspace --no-fail-fast --offline",
               "source_commits": HOOK_COMMITS, "add_only": True},
     "engines": [{"name": "impl_run", "path": "harness/", "serves_properties": sorted(CHECKS), "kind_free_text": "Rust harness linking /repo's working tree as a library; one engine per property, JSON cases in, canonical JSON lines out"},
                 {"name": "coq-model", "path": "coq/", "serves_properties": sorted(CHECKS), "kind_free_text": "Gallina model + theorems (Coq 8.16.1, std++); executable definitions evaluated by vm_compute for the correspondence"}],
     "checks": [], "not_applicable": [],
     "notes": "bin/check Cxx --tier quick|thorough; VERIF_SEED/VERIF_TIER honoured; see DESIGN.md",
    }
    for pid in sorted(CHECKS):
        c = CHECKS[pid]
        m["checks"].append({
          "property_id": pid,
          "quick_cmd": "bin/check %s --tier quick" % pid,
          "thorough_cmd": "bin/check %s --tier thorough" % pid,
          "evidence_file": "/verif/evidence/%s.json" % pid,
          "replay_cmd_template": "bin/check %s --replay {path}" % pid,
          "engine": "impl_run+coq-model",
          "level_claimed": {"category": "proof", "text": c["text"], "design_ref": c["ref"]},
          "level_note": c["note"],
          "technique": c["technique"]})
    import properties_ids
    for pid, reason in properties_ids.NOT_YET.items():
        if pid not in CHECKS:
            m["not_applicable"].append({"property_id": pid, "reason": reason})
    json.dump(m, open(os.path.join(V, "MANIFEST.json"), "w"), indent=1)
main()
