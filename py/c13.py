"""C13 - summary figures equal what their parts imply, at every level.
Proofs (Props/C13.v) + the same `report` engine and readers as C03; the oracle recomputes every summary figure from the
decoded detail of the same report and compares printed rates with the exact rational."""
import json
import vlib
import reportgen as G
import c03


def selftest(chk):
    case = G.fixed_cases()[5]
    res = vlib.run_impl("report", [case], chk.pid, extra_env={"GIT_DIR": "/nonexistent"})[0]
    muts = {
        "lcov": lambda b: b.replace(b"LH:1\n", b"LH:2\n", 1),
        "covdir": lambda b: b.replace(b'"linesMissed":5', b'"linesMissed":4', 1),
        "cobertura": lambda b: b.replace(b'lines-valid="14"', b'lines-valid="15"', 1),
        "markdown": lambda b: b.replace(b"Total coverage: 28.5714%", b"Total coverage: 28.5814%", 1),
        "ade": lambda b: b.replace(b'"total_uncovered":5', b'"total_uncovered":4', 1),
    }
    missed = []
    for ty, f in muts.items():
        orig = bytes.fromhex(res[ty])
        mut = f(orig)
        if mut == orig:
            missed.append(ty + " (mutation did not apply)")
            continue
        F, _ = G.evaluate_case(dict(case, types=[ty]), {ty: mut.hex()})
        if not [it for it in F.items if it["known"] is None and it["property"] == "C13"]:
            missed.append(ty)
    # html: corrupt the directory total of one index page
    pages = dict(res["html"])
    key = G.hx("src/index.html")
    orig = bytes.fromhex(pages[key])
    mut = orig.replace(b'<abbr title="1 / 6">', b'<abbr title="2 / 6">', 1)
    if mut == orig:
        missed.append("html (mutation did not apply)")
    else:
        pages[key] = mut.hex()
        F, _ = G.evaluate_case(dict(case, types=["html"]), {"html": pages})
        if not [it for it in F.items if it["known"] is None and it["property"] == "C13"]:
            missed.append("html")
    chk.extra["oracle_selftest"] = {"mutations": len(muts) + 1, "undetected": missed}
    if missed:
        chk.violation({"kind": "oracle-selftest", "detail": "seeded corruptions not noticed by the readers: %s" % missed}, has_input=False, tag="selftest")


def run(chk):
    c03.selftest = lambda chk: None
    c03.run(chk, prop="C13")
    selftest(chk)
    chk.cov["rule"] = chk.cov["rule"] + ("; C13 clauses per report: per-file figures against the listed detail of the same report, every directory / package / global total against the sum "
                                         "of its children up to the root, covered <= total, covered + missed = total, every printed rate against the exact rational covered/total within "
                                         "10^-precision (never float against float), in range, finite (NaN / inf / null detected textually), zero-total convention, coverage.json and badges against the global totals")
    chk.assumptions = chk.assumptions + ["rates are modelled as exact rationals followed by the format's rounding; IEEE-754 rounding of the division is not modelled (one unit of the last printed digit of slack in the correspondence, 10^-precision in the oracle)"]


def replay(chk, path):
    r = json.load(open(path))
    if "case" in r:
        impl, decs, _ = G.run_cases(chk, [r["case"]], chk.pid, "replay")
        G.correspondence(chk, [r["case"]], decs, "replay")
    else:
        chk.proofs()
