"""C14, gcov part: malformed gcov reports (intermediate text, gzip JSON) give a result or an error -
never a panic, a crash or a timeout - and the Gallina models agree with the implementation on the outcome class.
`run_part(chk)` is called from the C14 check; it counts evaluations, records violations on `chk` and returns counts.
Theorems: coq/theories/Props/C14gcov.v (merged into Props/C14.v)."""
import glob
import gzip
import os
import vlib, gcovgen as G
import c09

PID = "C14"


def _chunks(data, limit=25000):
    """cut a large text report into reports of <= limit bytes at line ends (a Coq list literal of more bytes overflows coqc's stack)"""
    out, cur = [], b""
    for line in data.split(b"\n")[:-1]:
        line += b"\n"
        if cur and len(cur) + len(line) > limit:
            out.append(cur)
            cur = b""
        cur += line
    out.append(cur)
    return out


def text_inputs(chk, quick):
    """prefixes of fixtures and of generated reports, dropped heads, token substitutions, byte flips"""
    rng = chk.rng
    datas = [c09.TEXT_PANIC_WITNESS, b"", b"\n", b"\r", b":", b"file", b"file:", b"lcount:1,1\nfile:a\n", b"lcount:1,1\nfunction:1,1,f\nbranch:1,taken",
             b"file:a\nlcount:1,18446744073709551616\n", b"file:a\nlcount:4294967296,1\n", b"file:a\nfunction:1\n", b"file:a\nfunction:1,1\n",
             b"file:a\nbranch:1\n", b"file:a\nlcount:\n", b"file:a\nlcount:,\n", b"file:a\nlcount:1,\n", b"file:\xff\xfe\nlcount:1,\xff\n", b"\x00" * 40]
    fixtures = []
    for p in sorted(glob.glob(os.path.join(vlib.REPO, "test", "*.gcov"))):
        fixtures += _chunks(open(p, "rb").read())[: (2 if quick else 6)]
    for d in fixtures:
        if len(d) <= 600:
            cuts = range(len(d))                       # every prefix of the small fixtures
        else:
            cuts = sorted(rng.sample(range(len(d)), 8 if quick else 150))
        datas += [d[:k] for k in cuts]
        for _ in range(4 if quick else 100):
            datas.append(c09.mutate_text(rng, d))
    reports = [G.gen_text_report(rng) for _ in range(30 if quick else 300)] + \
              [G.text_report(rng, G.gen_model(rng)) for _ in range(30 if quick else 300)]
    for i, r in enumerate(reports):
        d = G.render_report(r)
        if i < (6 if quick else 40):
            datas += [d[:k] for k in range(len(d))]    # every prefix
        for _ in range(6):
            m = c09.mutate_text(rng, d)
            if rng.random() < 0.3:
                m = c09.mutate_text(rng, m)
            datas.append(m)
    # every single-byte substitution by a hostile byte (NUL, line ends, the separators, UTF-8 continuation / lead bytes, 0xFF) at
    # every position of small reports: the readers slice strings they got from from_utf8_unchecked
    small = sorted((G.render_report(r) for r in reports), key=len)
    small = [d for d in small if 40 <= len(d)][: (1 if quick else 6)]
    for d in small:
        d = d[:260]
        for pos in range(len(d)):
            for b in HOSTILE:
                if d[pos] != b:
                    datas.append(d[:pos] + bytes([b]) + d[pos + 1:])
    return datas


HOSTILE = [0x00, 0x0a, 0x0d, 0x2c, 0x3a, 0x80, 0xbf, 0xc3, 0xff]


def run_text(chk, quick, counts):
    datas = text_inputs(chk, quick)
    cases = [{"hex": d.hex()} for d in datas]
    impl = vlib.run_impl("gcov_text", cases, PID, parallel=4, timeout=600, case_timeout=6)
    model = vlib.run_model(PID, "Run.ShowGcov", [vlib.app("run_gcov_text", list(d)) for d in datas], shard_size=200)
    for d, case, ri, rm in zip(datas, cases, impl, model):
        chk.count()
        a = G.results_from_impl(ri)
        counts["text " + a[0]] = counts.get("text " + a[0], 0) + 1
        if a[0] not in ("ok", "err"):
            chk.violation({"kind": "oracle", "engine": "gcov_text", "case": case, "text": d.decode("latin-1")[:2000], "impl": a,
                           "clause": "a malformed gcov text report must give a result or an error, never a panic, crash or timeout"}, tag="gcovtext")
            continue
        if c09.model_err(rm):
            chk.violation({"kind": "correspondence", "engine": "gcov_text", "case": case, "model": rm}, has_input=False, tag="gcovtext")
            continue
        m = G.results_from_coq(rm)
        if m[0] != a[0] or (a[0] == "ok" and vlib.canon(a[1]) != vlib.canon(m[1])):
            chk.violation({"kind": "correspondence", "engine": "gcov_text", "case": case, "impl": a, "model": m,
                           "theorems_at_stake": "C14_gcov_text_never_panics (Model/GcovText.v no longer describes parse_gcov)"},
                          has_input=False, tag="gcovtext")
            continue
        chk.nontrivial(case)


def json_inputs(chk, quick):
    rng = chk.rng
    items = [(None, b"not gzip at all".hex(), None), (None, b"".hex(), None), (None, b"\x1f\x8b".hex(), None), (None, b"\x1f\x8b\x08\x00".hex(), None),
             ("", None, None), ("{", None, None), ("[]", None, None), ("{}", None, None), ("null", None, None), ('{"files": []}', None, None),
             ('{"format_version":"1","gcc_version":"9","data_file":"a","files":[{"file":"a","functions":[],"lines":[{"line_number":1,"count":-1,"unexecuted_block":false,"branches":[]}]}]}', None, None),
             ('{"format_version":"1","gcc_version":"9","data_file":"a","files":[{"file":"a","functions":[],"lines":[{"line_number":1,"count":18446744073709551616,"unexecuted_block":false,"branches":[]}]}]}', None, None),
             ('{"format_version":"1","gcc_version":"9","data_file":"a","files":[{"file":"a","functions":[],"lines":[{"line_number":1,"count":1e999,"unexecuted_block":false,"branches":[]}]}]}', None, None),
             ("[" * 300, None, None), ('{"files":' + "[" * 200, None, None)]
    # the fixture: prefixes of the compressed file and of its JSON text, corrupted bytes
    for p in sorted(glob.glob(os.path.join(vlib.REPO, "test", "*.gcov.json.gz"))):
        raw = open(p, "rb").read()
        text = gzip.decompress(raw).decode("utf-8")
        for k in sorted(rng.sample(range(len(raw)), 25 if quick else 200)):
            items.append((None, raw[:k].hex(), None))
        for _ in range(10 if quick else 80):
            b = bytearray(raw)
            b[rng.randrange(len(b))] ^= 1 << rng.randrange(8)
            items.append((None, bytes(b).hex(), None))
        for k in sorted(rng.sample(range(len(text)), 10 if quick else 60)):
            items.append((text[:k], None, None))
    # generated reports: every prefix of a few, mutations of many, gzip-level damage
    for i in range(40 if quick else 400):
        text = G.render_json(rng, G.json_tree(rng, G.gen_model(rng, max_files=2)))
        if i < (2 if quick else 12):
            items += [(text[:k], None, None) for k in range(len(text))]
        for _ in range(4):
            items.append((c09.mutate_json(rng, text), None, None))
        gz = gzip.compress(text.encode())
        items.append((None, gz[:rng.randrange(len(gz))].hex(), None))
        b = bytearray(gz)
        b[rng.randrange(len(b))] = rng.randrange(256)
        items.append((None, bytes(b).hex(), None))
    # one counter replaced by a boundary token
    for tok in c09.BOUNDARY_TOKENS:
        tree = G.json_tree(rng, G.gen_model(rng, max_files=1), floats=0.0, dups=False)
        slots = c09.counter_slots(tree)
        if not slots:
            continue
        sec, fi, i, field = rng.choice(slots)
        if isinstance(field, tuple):
            tree[fi][sec][i]["branches"][field[1]] = tok
        else:
            tree[fi][sec][i][field] = tok
        items.append((G.render_json(rng, tree), None, None))
    return items


def run_json(chk, quick, counts):
    items = json_inputs(chk, quick)
    rows = c09.run_json_cases(_Pid(chk), items, "c14")
    for (item, case, ri, htree, rm) in rows:
        chk.count()
        a = G.results_from_impl(ri)
        counts["json " + a[0]] = counts.get("json " + a[0], 0) + 1
        short = {k: (v if len(v) < 4000 else v[:4000] + "...") for k, v in case.items()}
        if a[0] not in ("ok", "err"):
            chk.violation({"kind": "oracle", "engine": "gcov_json", "case": case if len(str(case)) < 100000 else short, "impl": a,
                           "clause": "a malformed gzip/JSON gcov report must give a result or an error, never a panic, crash or timeout"}, tag="gcovjson")
            continue
        if htree is None:
            if a[0] == "ok":
                chk.violation({"kind": "correspondence", "engine": "gcov_json", "case": short, "impl": a,
                               "what": "implementation accepts a report whose value tree the harness cannot read"}, has_input=False, tag="gcovjson")
                continue
            counts["json err, no value tree (gzip/JSON level: outside the model)"] = counts.get("json err, no value tree (gzip/JSON level: outside the model)", 0) + 1
            chk.nontrivial(case)
            continue
        if c09.model_err(rm):
            chk.violation({"kind": "correspondence", "engine": "gcov_json", "case": short, "model": rm}, has_input=False, tag="gcovjson")
            continue
        m = G.results_from_coq(rm)
        if m[0] == "ok" and a[0] == "err":
            # the tree has the shape the model reads, but serde rejects the text for a reason the tree does not show
            # (another required field missing or of the wrong type, duplicate key, trailing characters): outside the model
            counts["json err where the tree model says ok (struct-level rejection by serde)"] = \
                counts.get("json err where the tree model says ok (struct-level rejection by serde)", 0) + 1
            chk.nontrivial(case)
            continue
        if m[0] != a[0] or (a[0] == "ok" and vlib.canon(a[1]) != vlib.canon(m[1])):
            chk.violation({"kind": "correspondence", "engine": "gcov_json", "case": short, "impl": a, "model": m,
                           "theorems_at_stake": "C14_gcov_json_tree_never_panics (Model/GcovJson.v no longer describes parse_gcov_gz)"},
                          has_input=False, tag="gcovjson")
            continue
        chk.nontrivial(case)


def memory_stream(chk, quick, counts):
    """a small, highly compressible report (a legal JSON document padded with megabytes of blanks): reading it must not need
    memory proportional to the decompressed size.  Each case runs in a fresh harness process; the peak resident set is
    compared with that of the same report without padding."""
    plain = ('{"format_version":"1","gcc_version":"12","current_working_directory":"/w","data_file":"a.gcda","files":[{"file":"a.c",'
             '"functions":[{"name":"f","demangled_name":"f","start_line":1,"start_column":1,"end_line":3,"end_column":1,"blocks":2,"blocks_executed":2,"execution_count":4}],'
             '"lines":[{"line_number":1,"function_name":"f","count":4,"unexecuted_block":false,"branches":[]},'
             '{"line_number":2,"function_name":"f","count":0,"unexecuted_block":true,"branches":[]}]}]}')
    base = vlib.run_impl("gcov_json", [{"hex": gzip.compress(plain.encode()).hex(), "notree": True}], PID)[0]
    for mb in ([32] if quick else [32, 128]):        # (2 x mb MiB of blanks; 1 GiB takes longer than the per-case watchdog allows)
        pad = " " * (mb << 20)
        text = plain.replace('"files":[', '"files":[' + pad, 1).replace('"lines":[', '"lines":[\n' + pad, 1)
        gz = gzip.compress(text.encode(), 6)
        r = vlib.run_impl("gcov_json", [{"hex": gz.hex(), "notree": True}], PID, case_timeout=120)[0]
        chk.count()
        a, b = G.results_from_impl(r), G.results_from_impl(base)
        grow = r.get("_hwm_kb", 0) - base.get("_hwm_kb", 0)
        allow = 64 * len(gz) // 1024 + 16384
        counts["json memory: %d MiB of blanks in %d bytes, peak grew by %d kB" % (2 * mb, len(gz), grow)] = 1
        rep = {"kind": "oracle", "engine": "gcov_json", "input": "the report %s with %d MiB of blanks after '\"files\":[' and after '\"lines\":[' , gzip: %d bytes" % (plain, mb, len(gz))}
        if a[0] != "ok" or vlib.canon(a[1]) != vlib.canon(b[1]):
            chk.violation(dict(rep, impl=a, expected=b, clause="white space between JSON tokens does not change what the report says"), tag="gcovjson-mem")
        elif grow > allow:
            chk.violation(dict(rep, peak_growth_kb=grow, allowed_kb=allow,
                               clause="memory stays within a modest multiple of the input size (here: 64 x the %d-byte file + 16 MiB), not of the decompressed size" % len(gz)), tag="gcovjson-mem")
        else:
            chk.nontrivial(["json-mem", mb])


class _Pid:
    """run_json_cases only needs .pid (scratch directory names)"""
    def __init__(self, chk):
        self.pid = PID
        self.rng = chk.rng


def run_part(chk):
    quick = chk.tier == "quick"
    counts = {}
    run_text(chk, quick, counts)
    run_json(chk, quick, counts)
    memory_stream(chk, quick, counts)
    return counts
