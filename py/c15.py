"""C15 - run data only scales counts.  Proofs + Gcno::compute correspondence + the laws evaluated on the implementation."""
import itertools, json, os, struct
import vlib, gen
import gcnolib as G
import cgen

U64 = 2**64


def mutate_header(gcda, what):
    le = gcda[:4] == b"adcg"
    ws = G.words(gcda, le)
    if what == "version":
        return G.put_word(gcda, 1, ws[1] ^ 0x0100)
    if what == "checksum":
        return G.put_word(gcda, 2, ws[2] ^ 1)
    if what == "fn_checksum":          # first FUNCTION record: tag at word 3, length 4, ident 5, line checksum 6
        if len(ws) > 6 and ws[3] == 0x01000000:
            return G.put_word(gcda, 6, ws[6] ^ 1)
    return None


def gcda_sequences(rng, singles, merged, gcno=None):
    """lists of gcda to offer for one gcno, with the law each one exercises"""
    seqs = [("none", [])]
    if not singles:
        return seqs
    d1 = singles[0]
    seqs += [("one", [d1]), ("copies2", [d1, d1]), ("copies3", [d1, d1, d1])]
    if len(singles) >= 2:
        seqs += [("perm", list(p)) for p in itertools.islice(itertools.permutations(singles[:3]), 0, 4)]
        seqs.append(("perm", [singles[1], d1, singles[1]]))
        seqs.append(("perm", [singles[1], singles[1], d1]))
    if merged is not None:
        seqs.append(("merged", [merged]))
    for what in ("version", "checksum", "fn_checksum"):
        m = mutate_header(d1, what)
        if m is not None:
            pos = rng.randrange(0, 3)
            ds = [d1, d1]
            ds.insert(pos, m)
            seqs.append(("mismatch:" + what, ds))
    # a function the gcno does not describe: a foreign (function, counters) pair inserted after a known one, and the
    # identifier word of a record replaced by an absent value: an error, never accepted with counts
    if gcno is not None:
        known = G.gcno_idents_scan(gcno)
        try:
            ff = G.with_foreign_function(d1, known)
            ids = G.function_idents(d1)
        except Exception:
            ff, ids = None, []
        if ff is not None:
            seqs.append(("mismatch:foreign_function", [ff]))
            seqs.append(("mismatch:foreign_function", [d1, ff] if rng.random() < 0.5 else [ff, d1]))
        for (wi, _old) in ids[:3]:
            seqs.append(("mismatch:ident", [G.put_word(d1, wi, G.absent_ident(known))]))
    # a counter record whose length word announces fewer / more counters than the function has measured arcs, with the
    # records of the following functions behind it: the computation fails
    try:
        crecs = G.counter_records(d1)
    except Exception:
        crecs = []
    for (wi, ln) in crecs[:2]:
        for delta in (-2 * rng.randrange(1, 4), -1, 2 * rng.randrange(1, 4)):
            v = ln + delta
            if v >= 0 and v // 2 != ln // 2:
                seqs.append(("mismatch:arcs_length%+d" % delta, [G.put_word(d1, wi, v)]))
    # the version word differs from the gcno's only in the release-status character: not the same version
    for ch in STATUS_CHARS[:2] + [rng.choice(STATUS_CHARS[2:])]:
        m = with_status(d1, ch)
        seqs.append(("mismatch:status=%d" % ch, [m] if rng.random() < 0.5 else [d1, m]))
    # the file stamp (checksum word) of the gcda replaced by boundary values, 0 included: rejected unless equal to the gcno's
    stamp = G.words(d1, d1[:4] == b"adcg")[2]
    for v in (0, 1, 2**31, 2**32 - 1):
        if v != stamp:
            ds = [d1]
            ds.insert(rng.randrange(0, 2), G.put_word(d1, 2, v))
            seqs.append(("mismatch:stamp=%d" % v, ds if rng.random() < 0.5 else [G.put_word(d1, 2, v)]))
    return seqs


def with_status(buf, ch):
    """the version word with its release-status character ('*') replaced: `408*` -> `408e`; little- and big-endian files"""
    i = 4 if buf[:4] in (b"oncg", b"adcg") else 7
    return buf[:i] + bytes([ch]) + buf[i + 1:]


STATUS_CHARS = [ord("e"), ord("p"), ord("A"), ord("+"), 0]


def stamp_zero_source(src):
    """the same gcno with its file stamp set to 0: the original gcda (non-zero stamp) must be rejected, the gcda with
    stamp 0 (equal stamps) accepted"""
    if not src["singles"]:
        return None
    g = src["gcno"]
    if G.words(g, g[:4] == b"oncg")[2] == 0:
        return None
    g0 = G.put_word(g, 2, 0)
    return {"label": src["label"] + "+stamp0", "gcno": g0, "singles": [G.put_word(d, 2, 0) for d in src["singles"]],
            "merged": None, "extra_seqs": [("mismatch:gcno_stamp=0", [src["singles"][0]]),
                                           ("mismatch:gcno_stamp=0", [G.put_word(src["singles"][0], 2, 0), src["singles"][0]])]}


def synth_sources(rng, n):
    """synthesised gcno/gcda: random small CFGs incl. parallel arcs and multi-block lines; boundary counters"""
    out = []
    pool = [0, 0, 1, 2, 3, 5, 2**32 - 1, 2**32, 2**62, 2**63 - 1]
    for i in range(n):
        nb = rng.randrange(2, 8)
        arcs = []
        for s in range(nb - 1):
            k = rng.randrange(1, 4)
            dsts = []
            for _ in range(k):
                d = rng.randrange(1, nb) if rng.random() < 0.8 else s + 1
                dsts.append((d, rng.choice([0, 0, 0, 1, 4, 2])))
            if rng.random() < 0.3:
                dsts.append(dsts[0])                       # parallel arc
            arcs.append((s, dsts))
        lines = {b: [rng.randrange(1, 6) for _ in range(rng.randrange(0, 3))] for b in range(nb)}
        f = dict(ident=i + 1, name=b"f%d" % i, file=rng.choice([b"a.c", b"b.h"]), start=rng.randrange(1, 5), nblocks=nb, arcs=arcs, lines=lines)
        nreal = sum(1 for _, ds in arcs for _, fl in ds if fl & 1 == 0)
        version = rng.choice([b"*204", b"*804"])
        gcno = G.synth_gcno([f], version=version)
        singles = [G.synth_gcda([f], {f["ident"]: [rng.choice(pool) for _ in range(nreal)]}, version=version) for _ in range(2)]
        out.append({"label": "synth%d" % i, "gcno": gcno, "singles": singles, "merged": None})
    return out


def flow_sources(rng, n):
    """synthesised CFGs with a real profile whose blocks list their arcs in shuffled / descending destination order (the
    layout of clang <= 10): the k-th counter of the gcda belongs to the k-th measured arc of the gcno in file order"""
    out = []
    for i in range(n):
        f, counters, exp = G.flow_function(rng, i + 1, tree=(i % 2 == 1), order=rng.choice(["shuffle", "desc"]), walks=rng.randrange(1, 9))
        version = rng.choice([b"*204", b"*704"])
        gcno = G.synth_gcno([f], version=version)
        out.append({"label": "flow%d" % i, "gcno": gcno, "singles": [G.synth_gcda([f], {f["ident"]: counters}, version=version)], "merged": None, "expect": exp})
    return out


def clang_sources(chk, n):
    out = []
    sc = vlib.scratch("c15_clang")
    for i in range(n):
        files = cgen.program(chk.rng)
        d = os.path.join(sc, "p%d" % i)
        try:
            version = cgen.VERSIONS[(i + i // len(cgen.VERSIONS)) % len(cgen.VERSIONS)]
            gcno = cgen.build(d, files, version=version)
            args = cgen.arg_sets(chk.rng, chk.rng.randrange(1, 4))
            singles, merged = cgen.profiles(d, args)
        except Exception as ex:          # a generated program that does not compile or hangs is skipped, and counted
            chk.extra.setdefault("skipped_programs", []).append(str(ex)[:200])
            continue
        out.append({"label": "clang%d" % i, "gcno": gcno, "singles": singles, "merged": merged, "files": files, "args": args, "version": version})
        if i % 2 == 1:
            # big-endian twin of the same files (every 32-bit word byte-swapped): same laws, same correspondence
            out.append({"label": "clang%d-be" % i, "gcno": cgen.to_big_endian_gcno(gcno), "singles": [cgen.to_big_endian_gcda(x) for x in singles],
                        "merged": cgen.to_big_endian_gcda(merged) if merged is not None else None, "files": files, "args": args, "version": version})
    return out


def fixture_sources():
    out = []
    for pair in G.SMALL + G.GCC:
        g, d = G.fixture(pair)
        out.append({"label": pair[0], "gcno": g, "singles": [d], "merged": None})
    for pair in G.SMALL:                 # big-endian twins of the LLVM fixtures
        g, d = G.fixture(pair)
        out.append({"label": pair[0] + "-be", "gcno": cgen.to_big_endian_gcno(g), "singles": [cgen.to_big_endian_gcda(d)], "merged": None})
    return out


def counter_mass(gcda):
    """(number of counters, their sum) of a well-formed gcda, by walking its records"""
    le = gcda[:4] == b"adcg"
    ws = G.words(gcda, le)
    i, n, tot = 3, 0, 0
    while i + 1 < len(ws) and ws[i] != 0:
        tag, ln = ws[i], ws[i + 1]
        if tag == 0x01a10000:
            for j in range(ln // 2):
                if i + 3 + 2 * j < len(ws):
                    tot += ws[i + 2 + 2 * j] + (ws[i + 3 + 2 * j] << 32)
                    n += 1
        i += 2 + ln
    return n, tot


def struct_of(res):
    return [[n, sorted(l for l, _ in c["lines"]), sorted([f[0], f[1]] for f in c["funcs"]), sorted([l, len(v)] for l, v in c["branches"])] for n, c in res]


def laws(chk, src, seqs, results, dist):
    """the property's own statement evaluated on the implementation's results for one gcno"""
    by = {}
    for (law, ds), r in zip(seqs, results):
        by.setdefault(law, []).append((ds, r))
    base = by["none"][0][1]

    def viol(clause, **kw):
        chk.violation(dict({"kind": "oracle", "engine": "gcno", "source": src["label"], "gcno": src["gcno"].hex(), "clause": clause}, **kw), tag="law")

    if "ok" not in base:
        return
    b = G.canon_impl(base)
    # no gcda: all zero
    for n, c in b:
        if any(x[1] != 0 for x in c["lines"]) or any(f[2] for f in c["funcs"]) or any(any(v) for _, v in c["branches"]):
            viol("with no gcda every count is zero and nothing is executed", impl=b)
    dist["no_gcda"] += 1
    for law, lst in by.items():
        for ds, r in lst:
            chk.count()
            if law.startswith("mismatch"):
                dist["mismatch"] += 1
                if "err" not in r:
                    viol("a gcda record for a function the gcno does not describe must make the computation fail (never accepted with its counts)"
                         if law in ("mismatch:foreign_function", "mismatch:ident") else
                         "a counter record whose length does not match the number of measured arcs of its function must make the computation fail"
                         if law.startswith("mismatch:arcs_length") else
                         "a gcda whose version or checksums do not match the gcno must make the computation fail", law=law, gcdas=[d.hex() for d in ds], impl=r)
                continue
            if "ok" not in r:
                if law != "none":
                    viol("a matching gcda must be accepted", law=law, gcdas=[d.hex() for d in ds], impl=r)
                continue
            c = G.canon_impl(r)
            if struct_of(c) != struct_of(b):
                viol("lines, functions and branch slots are determined by the gcno alone", law=law, gcdas=[d.hex() for d in ds], impl=struct_of(c), expected=struct_of(b))
            dist["structure"] += 1
    # synthesised profile: counters are attached to the arcs in notes-file order, whatever the destination order
    if "expect" in src and "one" in by and "ok" in by["one"][0][1]:
        exp = src["expect"]
        got = G.canon_impl(by["one"][0][1])
        gl = {l: x for _n, c in got for l, x in c["lines"]}
        gb = {l: v for _n, c in got for l, v in c["branches"]}
        ge = all(f[2] for _n, c in got for f in c["funcs"])
        if gl != exp["lines"] or ge != exp["executed"] or gb != exp["branches"]:
            viol("the k-th counter of a gcda belongs to the k-th measured arc of the gcno in file order (per-line counts and branch outcomes of a synthesised profile)",
                 gcdas=[d.hex() for d in by["one"][0][0]], impl={"lines": gl, "branches": gb, "executed": ge}, expected=exp)
        dist["arc_order"] = dist.get("arc_order", 0) + 1
    # k copies
    if "one" in by and "ok" in by["one"][0][1]:
        one = G.canon_impl(by["one"][0][1])
        for k, law in ((2, "copies2"), (3, "copies3")):
            r = by[law][0][1]
            if "ok" not in r:
                viol("k copies of an accepted gcda must be accepted", k=k, impl=r)
                continue
            ck = G.canon_impl(r)
            exp = [[n, {"lines": [[l, x * k] for l, x in c["lines"]], "branches": c["branches"], "funcs": c["funcs"]}] for n, c in one]
            n, tot = counter_mass(by["one"][0][0][0])
            if max([x for _, c in exp for _, x in c["lines"]] + [0]) >= U64 or k * (n + 2) * tot >= U64:
                dist["copies_overflow"] += 1          # an intermediate u64 sum may wrap: outside the law, only recorded
                continue
            if vlib.canon(ck) != vlib.canon(exp):
                viol("supplying the same gcda k times yields exactly k times the counts", k=k, impl=ck, expected=exp)
            dist["copies"] += 1
            if any(x for _, c in one for _, x in c["lines"]):
                chk.nontrivial(["copies", src["label"], k])
    # permutations
    perms = [(ds, r) for ds, r in by.get("perm", [])]
    groups = {}
    for ds, r in perms:
        groups.setdefault(tuple(sorted(d.hex() for d in ds)), []).append(r)
    for key, rs in groups.items():
        cs = [vlib.canon(G.canon_impl(r)) if "ok" in r else G.klass(r) for r in rs]
        if len(set(cs)) > 1:
            viol("the result does not depend on the order of the gcda files", results=cs[:3])
        dist["perm_groups"] += 1
        if len(rs) > 1:
            chk.nontrivial(["perm", src["label"], key[0][:16]])
    # merged gcda (written by the runtime for all runs) = the list of single-run gcda
    if "merged" in by and perms:
        full = [r for ds, r in perms if len(ds) == len(src["singles"]) and sorted(d.hex() for d in ds) == sorted(d.hex() for d in src["singles"])]
        m = by["merged"][0][1]
        if full and "ok" in m and "ok" in full[0]:
            a, bb = G.canon_impl(m), G.canon_impl(full[0])
            if [[n, c["lines"], c["funcs"]] for n, c in a] != [[n, c["lines"], c["funcs"]] for n, c in bb]:
                viol("counts of the per-run gcda files add up to the counts of the gcda the runtime merged", merged=a, listed=bb)
            dist["merged"] += 1
    # executed iff entered: in the generated programs every function starts on its own line, which belongs to its entry block
    if src["label"].startswith("clang"):
        for law in ("one", "merged"):
            if law in by and "ok" in by[law][0][1]:
                for n, c in G.canon_impl(by[law][0][1]):
                    lines = dict(c["lines"])
                    for name, start, ex in c["funcs"]:
                        if start in lines and ex != (lines[start] > 0):
                            viol("a function is reported executed iff it was entered at least once", function=name, start=start, count=lines[start], executed=ex)
                        dist["executed_iff"] += 1


def run(chk):
    chk.proofs()
    quick = chk.tier == "quick"
    sources = fixture_sources() + synth_sources(chk.rng, 30 if quick else 400) + flow_sources(chk.rng, 12 if quick else 200) + clang_sources(chk, 8 if quick else 120)
    dist = {k: 0 for k in ("no_gcda", "mismatch", "structure", "copies", "copies_overflow", "perm_groups", "merged", "executed_iff", "model_cases", "model_outoffuel")}
    cases, index = [], []
    derived = [stamp_zero_source(s_) for s_ in sources if not s_["label"].startswith(("synth", "flow"))]
    sources += [d_ for d_ in derived[:len(G.SMALL + G.GCC) + 3 + 4] if d_ is not None]
    for si, src in enumerate(sources):
        seqs = gcda_sequences(chk.rng, src["singles"], src["merged"], src["gcno"]) + src.get("extra_seqs", [])
        src["seqs"] = seqs
        for qi, (law, ds) in enumerate(seqs):
            cases.append(G.case(src["gcno"], ds, True))
            index.append((si, qi))
    # gcno whose version word carries another status character than '*': not a version grcov reads, with or without gcda
    status_cases = []
    for src in [s_ for s_ in sources if not s_["label"].startswith(("synth", "flow")) and "+stamp0" not in s_["label"]][:14]:
        for ch in STATUS_CHARS[:2] + [chk.rng.choice(STATUS_CHARS[2:])]:
            g2 = with_status(src["gcno"], ch)
            for ds in ([], [with_status(src["singles"][0], ch)] if src["singles"] else []):
                c_ = G.case(g2, ds, True)
                c_["law"] = "mismatch:gcno_status=%d" % ch
                status_cases.append(c_)
    st_impl = G.run_guarded(status_cases, chk.pid)
    st_model = G.run_model(chk.pid, status_cases[::3], fn="class_gcno", shard_size=60)
    for c_, r_ in zip(status_cases, st_impl):
        chk.count()
        if "err" not in r_:
            chk.violation({"kind": "oracle", "engine": "gcno", "case": c_, "impl": r_, "law": c_["law"],
                           "clause": "a version word that differs from a gcov version only in the release-status character is not accepted (gcno side)"}, tag="law")
    for c_, r_, m_ in zip(status_cases[::3], st_impl[::3], st_model):
        if not (isinstance(m_, tuple) and m_ and m_[0] == "@@ERROR") and G.MODEL_CLASS.get(m_) != G.klass(r_):
            chk.violation({"kind": "correspondence", "engine": "gcno", "case": c_, "impl": r_, "model": G.MODEL_CLASS.get(m_),
                           "theorems_at_stake": "C15_* (Model/GcnoRead.v read_version no longer describes the reader)"}, has_input=False, tag="corr")
    impl = G.run_guarded(cases, chk.pid)
    per = {}
    for ci, ((si, qi), r) in enumerate(zip(index, impl)):
        per.setdefault(si, []).append(r)
        if G.klass(r) not in ("ok", "err"):
            chk.violation({"kind": "oracle", "engine": "gcno", "case": cases[ci], "impl": r, "clause": "Gcno::compute must end in a result or an error value"}, tag="crash")
    for si, src in enumerate(sources):
        laws(chk, src, src["seqs"], per[si], dist)
    # correspondence with the model on the same bytes (gcno up to 12 kB to keep vm_compute cheap)
    sel = [i for i, (si, qi) in enumerate(index) if len(sources[si]["gcno"]) <= 12000]
    if quick:
        nfix = len(G.SMALL + G.GCC) + len(G.SMALL)
        def _keep(i):
            si, qi = index[i]
            law = sources[si]["seqs"][qi][0]
            if law in ("none", "one", "copies2", "merged"):
                return True
            # mismatch laws: all of them for the fixtures, every third source otherwise
            return law in ("mismatch:checksum", "mismatch:fn_checksum", "mismatch:stamp=0", "mismatch:gcno_stamp=0", "mismatch:foreign_function", "mismatch:ident") \
                and (si < nfix or si % 3 == 0)
        keep = [i for i in sel if _keep(i)]
        rest = [i for i in sel if i not in set(keep)]
        sel = keep + chk.rng.sample(rest, min(len(rest), 60))
    mcases = [cases[i] for i in sel]
    model = G.run_model(chk.pid, mcases)
    dis = []
    for i, rm in zip(sel, model):
        chk.count()
        dist["model_cases"] += 1
        ri = impl[i]
        if isinstance(rm, tuple) and rm and rm[0] == "@@ERROR":
            dis.append({"case": cases[i], "model": rm})
            continue
        k, cm = G.canon_model(rm)
        if k == "outoffuel":
            dist["model_outoffuel"] += 1
            continue
        if k != G.klass(ri) or (k == "ok" and vlib.canon(cm) != vlib.canon(G.canon_impl(ri))):
            dis.append({"case": cases[i], "impl": ri, "model": [k, cm]})
    # how often the hypothesis of C15_k_copies_scale_wrap (no_overflow_b) holds on the tested k-copies inputs
    nsel = [i for i in sel if sources[index[i][0]]["seqs"][index[i][1]][0] in ("one", "copies2", "copies3")][:40 if quick else 400]
    nov = G.run_model(chk.pid, [cases[i] for i in nsel], fn="run_no_overflow", shard_size=40)
    dist["no_overflow_checked"] = len(nsel)
    dist["no_overflow_holds"] = sum(1 for v in nov if v is True)
    for d in dis[:3]:
        d.update({"kind": "correspondence", "engine": "gcno", "theorems_at_stake": "C15_* (Model/GcnoRead.v, GcnoCount.v no longer describe Gcno::compute)"})
        chk.violation(d, has_input=False, tag="corr")
    chk.extra["distribution"] = dist
    chk.extra["sources"] = {"fixtures": len(G.SMALL + G.GCC), "synthesised": sum(1 for s in sources if s["label"].startswith("synth")),
                            "clang_programs": sum(1 for s in sources if s["label"].startswith("clang")), "gcda_sequences": len(cases)}
    chk.sample({"source": sources[-1]["label"], "sequences": [l for l, _ in sources[-1]["seqs"]]})
    chk.cov["rule"] = ("gcno sources: the 8 small checked-in fixtures (LLVM 4.2, GCC 6-10) and big-endian twins of the three LLVM ones, synthesised CFGs (parallel arcs, fake/tree flags, multi-block lines, "
                       "counters from a boundary pool up to 2^63) in versions *204 and *804, and programs generated from a seeded C grammar compiled with clang-14 --coverage (gcov format version rotating over 408*, 407*, 402*, 409*, 406*, 404*; every second program also as a big-endian twin) and "
                       "run 1-3 times (one gcda per run plus the runtime-merged one); per source the gcda lists: none, one, 2 and 3 copies, permutations with repetitions, merged, "
                       "and lists containing a gcda with a flipped version / checksum / function-checksum word at a random position, the gcda stamp word replaced by 0, 1, 2^31, 2^32-1, the length word of a counter record changed by -6..+6 words, the release-status character of the version word replaced by e / p / other bytes on the gcda side and on the gcno side, and (for the fixtures and some programs) the gcno stamp set to 0 against the original gcda (rejected) and against a gcda with stamp 0 (accepted); every law of the property is evaluated on "
                       "Gcno::compute's results, and the Gallina model is run on the same bytes (full result equality); non-trivial = k-copies cases with a non-zero count and "
                       "permutation groups with at least two orders")
    chk.cov["trusted_base"] = ["Coq kernel; vm_compute for the correspondence", "impl_run harness (hex transport, sorting of the result vector)",
                               "clang-14 / the profile runtime only as producers of realistic inputs", "slice::binary_search_by of the toolchain's std is transcribed in the model (bs_loop) and validated by the parallel-arc cases"]
    chk.assumptions = ["k_copies_scale is proved for the model evaluated in exact arithmetic (no u64 overflow); cases whose k-fold counts reach 2^64 are recorded, not judged",
                       "executed-iff-entered is proved as 'first arc counter > 0'; that the first arc leaves the entry block is a property of the files compilers write, checked here through the start-line count of generated programs"]


def replay(chk, path):
    r = json.load(open(path))
    if "gcno" in r and "gcdas" in r:
        c = G.case(bytes.fromhex(r["gcno"]), [bytes.fromhex(x) for x in r["gcdas"]], True)
        print(json.dumps(G.run_guarded([c], chk.pid)[0])[:2000])
    else:
        chk.proofs()
