"""Generators shared by the engines.  All randomness comes from the rng passed in."""

U64 = 2**64 - 1
COUNTS = [0, 1, 2, 3, 2**32 - 1, 2**32, 2**32 + 1, 2**63 - 1, 2**63, U64 - 1, U64]
LINES = [0, 1, 2, 3, 4, 5, 7, 10, 100, 255, 256, 65535, 65536, 2**31 - 1, 2**31, 2**32 - 1]
NAMES = ["f", "", "2,3#origin", "7", "main", "_ZN3foo3barEv", "a,b", "op<T, U>", "café", "日本", "x y", "f\"q'", "a&b<c>",
         "Class#method", "Outer$Inner#<init>", "\U0001f600", "long_" + "n" * 40, "get size", "get size ", "計算\u3000", "tab\t", " lead"]
PATHS = ["a.c", "src/lib.rs", "dir/b.cpp", "/abs/p.c", "café/ü.c", "d,1/x y.c", "a&b/<c>.h", "com/x/Top.java",
         "deep/er/est/f.c", "z.rs"]


def count(rng):
    r = rng.random()
    if r < 0.45:
        return rng.choice(COUNTS)
    if r < 0.8:
        return rng.randrange(0, 50)
    return rng.randrange(0, U64 + 1)


def cov(rng, max_lines=5, lines_pool=None, names_pool=None, empty_ok=True):
    lp = lines_pool or LINES
    nl = rng.randrange(0 if empty_ok else 1, max_lines + 1)
    lines = sorted(rng.sample(lp, min(nl, len(lp))))
    nb = rng.randrange(0, 4)
    bl = sorted(rng.sample(lp, min(nb, len(lp))))
    nf = rng.randrange(0, 4)
    np_ = names_pool or NAMES
    fns = rng.sample(np_, min(nf, len(np_)))
    return {
        "lines": [[l, count(rng)] for l in lines],
        "branches": [[l, [rng.random() < 0.5 for _ in range(rng.randrange(1, 7))]] for l in bl],
        "funcs": [[hexname(n), rng.choice(lp), rng.random() < 0.5] for n in sorted(fns, key=lambda s: s.encode())],
    }


def hexname(s):
    return (s if isinstance(s, bytes) else s.encode()).hex()


def cov_coq(c):
    """JSON cov -> Python value that vlib.coq prints as a cov_l."""
    return ([(l, n) for l, n in c["lines"]],
            [(l, list(v)) for l, v in c["branches"]],
            [(list(bytes.fromhex(n)), (s, e)) for n, s, e in c["funcs"]])


def cov_from_coq(v):
    """parsed cov_l -> canonical JSON cov (sorted)."""
    ls, bs, fs = v
    return {
        "lines": sorted([[a, b] for a, b in ls]),
        "branches": sorted([[a, list(b)] for a, b in bs]),
        "funcs": sorted([[bytes(n).hex(), s, e] for n, (s, e) in fs], key=lambda x: bytes.fromhex(x[0])),
    }


def cov_canon(c):
    return {
        "lines": sorted([list(x) for x in c["lines"]]),
        "branches": sorted([[a, list(b)] for a, b in c["branches"]]),
        "funcs": sorted([list(x) for x in c["funcs"]], key=lambda x: bytes.fromhex(x[0])),
    }


def random_tree(rng, idxs):
    """random parenthesisation of a random permutation of idxs; nested 2-lists."""
    idxs = list(idxs)
    rng.shuffle(idxs)

    def build(xs):
        if len(xs) == 1:
            return xs[0]
        k = rng.randrange(1, len(xs))
        return [build(xs[:k]), build(xs[k:])]
    return build(idxs)


def tree_leaves(t):
    return [t] if isinstance(t, int) else tree_leaves(t[0]) + tree_leaves(t[1])


def tree_coq(t):
    from vlib import Raw
    if isinstance(t, int):
        return Raw("(Leaf %d)" % t)
    return Raw("(Node %s %s)" % (tree_coq(t[0]), tree_coq(t[1])))


# --- reference aggregate (the property statement itself, in Python) ---------

def ref_agg(covs):
    """obs aggregate of a list of JSON covs per C01's text."""
    lines, branches, funcs = {}, {}, {}
    for c in covs:
        for l, n in c["lines"]:
            lines[l] = lines.get(l, 0) + n
        for l, v in c["branches"]:
            cur = branches.get(l, [])
            m = max(len(cur), len(v))
            branches[l] = [(cur[i] if i < len(cur) else False) or (v[i] if i < len(v) else False) for i in range(m)]
        for n, s, e in c["funcs"]:
            st, ex = funcs.get(n, (set(), False))
            funcs[n] = (st | {s}, ex or e)
    return {
        "lines": sorted([l, min(n, U64)] for l, n in lines.items()),
        "branches": sorted([l, v] for l, v in branches.items()),
        "funcs": {n: (st, ex) for n, (st, ex) in funcs.items()},
    }


def obs_matches(res, ref):
    """does an implementation result satisfy the reference aggregate?  returns None or a reason."""
    if sorted(res["lines"]) != ref["lines"]:
        return "lines differ: got %s expected %s" % (sorted(res["lines"]), ref["lines"])
    if sorted(res["branches"]) != ref["branches"]:
        return "branches differ: got %s expected %s" % (sorted(res["branches"]), ref["branches"])
    got = {n: (s, e) for n, s, e in res["funcs"]}
    if set(got) != set(ref["funcs"]):
        return "function sets differ"
    for n, (s, e) in got.items():
        st, ex = ref["funcs"][n]
        if e != ex:
            return "function %s executed flag %s expected %s" % (n, e, ex)
        if s not in st:
            return "function %s start %s not among the inputs' starts %s" % (n, s, sorted(st))
    return None
