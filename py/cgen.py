"""Seeded generator of small C programs for the gcno/gcda differentials (C08, C15), their compilation with
clang-14 --coverage, per-run gcda capture and the reference reading of `llvm-cov-14 gcov`."""
import os, re, shutil, subprocess

CLANG = "clang-14"
LLVM_COV = "llvm-cov-14"


class Gen:
    def __init__(self, rng):
        self.rng = rng
        self.lines = []
        self.tmp = 0

    def emit(self, ind, s):
        self.lines.append("  " * ind + s)

    def expr(self, vars_, depth=0):
        r = self.rng
        if depth > 2 or r.random() < 0.35:
            return r.choice(vars_ + [str(r.randrange(0, 9))])
        op = r.choice(["+", "-", "*", "%", "&", "^"])
        a, b = self.expr(vars_, depth + 1), self.expr(vars_, depth + 1)
        if op == "%":
            return "(%s %% (((%s) & 7) + 1))" % (a, b)
        return "(%s %s %s)" % (a, op, b)

    def cond(self, vars_, depth=0):
        r = self.rng
        c = "%s %s %s" % (self.expr(vars_, 2), r.choice(["<", ">", "==", "!=", "<=", ">="]), self.expr(vars_, 2))
        if depth < 2 and r.random() < 0.4:
            return "(%s) %s (%s)" % (c, r.choice(["&&", "||"]), self.cond(vars_, depth + 1))
        return c

    def simple(self, ind, vars_, callees):
        r = self.rng
        k = r.random()
        v = r.choice(vars_[:3]) if len(vars_) >= 3 else vars_[0]
        if k < 0.55 or not callees:
            s = "%s = %s;" % (v, self.expr(vars_))
        elif k < 0.8:
            s = "%s += %s(%s, %s);" % (v, r.choice(callees), self.expr(vars_, 2), self.expr(vars_, 2))
        else:
            s = "%s = (%s) ? %s : %s;" % (v, self.cond(vars_, 1), self.expr(vars_, 2), self.expr(vars_, 2))
        if r.random() < 0.25:                       # several statements on one line
            s += " %s ^= %s;" % (v, self.expr(vars_, 2))
            if r.random() < 0.4:
                s += " if (%s) %s++;" % (self.cond(vars_, 2), v)
        self.emit(ind, s)

    def block(self, ind, vars_, callees, depth, in_loop):
        r = self.rng
        n = r.randrange(1, 4)
        for _ in range(n):
            k = r.random()
            if depth >= 3 or k < 0.35:
                self.simple(ind, vars_, callees)
            elif k < 0.55:
                self.emit(ind, "if (%s) {" % self.cond(vars_))
                self.block(ind + 1, vars_, callees, depth + 1, in_loop)
                if r.random() < 0.6:
                    if r.random() < 0.3:
                        self.emit(ind, "} else if (%s) {" % self.cond(vars_))
                        self.block(ind + 1, vars_, callees, depth + 1, in_loop)
                    self.emit(ind, "} else {")
                    self.block(ind + 1, vars_, callees, depth + 1, in_loop)
                self.emit(ind, "}")
            elif k < 0.7:
                self.tmp += 1
                i = "i%d" % self.tmp
                if r.random() < 0.3:
                    # a whole loop on ONE source line whose circuits share arcs: short-circuit loop condition, or two
                    # if/else in sequence in the body (structured: the cycle decomposition of the line is unique)
                    v = vars_[0]
                    if r.random() < 0.5:
                        self.emit(ind, "for (int %s = 0; %s < ((%s) & 7) + %d; %s++) { if (%s & 1) %s += 1; else %s -= 2; if (%s %% 3) %s ^= 3; else %s += 4; }"
                                  % (i, i, self.expr(vars_, 2), r.randrange(2, 5), i, i, v, v, i, v, v))
                    else:
                        op = r.choice(["&&", "||"])
                        c2 = "((%s + %s) & 7) != 7" % (v, i) if op == "&&" else "((%s + %s) & 15) == 15" % (v, i)
                        c1 = "%s < m%s" % (i, i) if op == "&&" else "%s < (m%s >> 1)" % (i, i)
                        self.emit(ind, "{ int %s = 0, m%s = ((%s) & 7) + 3; while (%s < m%s && (%s %s %s)) %s++; %s += %s; }"
                                  % (i, i, self.expr(vars_, 2), i, i, c1, op, c2, i, v, i))
                elif r.random() < 0.6:
                    self.emit(ind, "for (int %s = 0; %s < ((%s) & 3) + %d; %s++) {" % (i, i, self.expr(vars_, 2), r.randrange(0, 3), i))
                    self.block(ind + 1, vars_ + [i], callees, depth + 1, True)
                    self.emit(ind, "}")
                elif r.random() < 0.5:
                    self.emit(ind, "int %s = ((%s) & 3) + %d;" % (i, self.expr(vars_, 2), r.randrange(0, 2)))
                    self.emit(ind, "while (%s > 0) {" % i)
                    self.block(ind + 1, vars_ + [i], callees, depth + 1, True)
                    self.emit(ind + 1, "%s--;" % i)
                    self.emit(ind, "}")
                else:
                    self.emit(ind, "int %s = ((%s) & 3);" % (i, self.expr(vars_, 2)))
                    self.emit(ind, "do { %s = %s; %s--; } while (%s > 0);" % (vars_[0], self.expr(vars_, 2), i, i))
            elif k < 0.82:
                self.emit(ind, "switch ((%s) & 3) {" % self.expr(vars_, 1))
                for cse in r.sample([0, 1, 2, 3], r.randrange(1, 4)):
                    self.emit(ind, "case %d:" % cse)
                    self.simple(ind + 1, vars_, callees)
                    if r.random() < 0.7:
                        self.emit(ind + 1, "break;")
                if r.random() < 0.6:
                    self.emit(ind, "default:")
                    self.simple(ind + 1, vars_, callees)
                self.emit(ind, "}")
            elif k < 0.9:
                self.emit(ind, "if (%s) return %s;" % (self.cond(vars_, 1), self.expr(vars_, 2)))
            elif in_loop:
                self.emit(ind, "if (%s) %s;" % (self.cond(vars_, 2), r.choice(["break", "continue"])))
            else:
                self.simple(ind, vars_, callees)

    def function(self, name, callees, static_inline=False):
        self.emit(0, "%sint %s(int a, int b) {" % ("static inline " if static_inline else "", name))
        self.emit(1, "int c = a ^ b;")
        self.block(1, ["a", "b", "c"], callees, 0, False)
        self.emit(1, "return a + b + c;")
        self.emit(0, "}")
        self.emit(0, "")


def program(rng):
    """returns {"t.c": text, "h.h": text or absent}"""
    files = {}
    callees = []
    use_header = rng.random() < 0.5
    if use_header:
        g = Gen(rng)
        g.emit(0, "#ifndef H_H")
        g.emit(0, "#define H_H")
        for i in range(rng.randrange(1, 3)):
            g.function("h%d" % i, list(callees), static_inline=True)
            callees.append("h%d" % i)
        g.emit(0, "#endif")
        files["h.h"] = "\n".join(g.lines) + "\n"
    g = Gen(rng)
    g.emit(0, "#include <stdlib.h>")
    if use_header:
        g.emit(0, '#include "h.h"')
    g.emit(0, "")
    nf = rng.randrange(1, 5)
    for i in range(nf):
        g.function("f%d" % i, list(callees))
        callees.append("f%d" % i)
    g.emit(0, "int main(int argc, char **argv) {")
    g.emit(1, "int x = argc > 1 ? atoi(argv[1]) : 0;")
    g.emit(1, "int y = argc > 2 ? atoi(argv[2]) : 1;")
    g.emit(1, "int r = 0;")
    for c in callees:
        k = rng.random()
        if k < 0.5:
            g.emit(1, "r += %s(x, y);" % c)
        elif k < 0.8:
            g.emit(1, "if (%s) r += %s(y, x + %d);" % (g.cond(["x", "y", "r"], 1), c, rng.randrange(0, 5)))
        # else: never called
    if rng.random() < 0.3:
        g.emit(1, "for (int i = 0; i < (x & 7); i++) { r += %s(i, y); }" % rng.choice(callees))
    g.emit(1, "return (r & 1) ? 0 : 0;")
    g.emit(0, "}")
    files["t.c"] = "\n".join(g.lines) + "\n"
    if rng.random() < 0.08:
        # rarely: a one-line macro expanding to a loop around a large switch (35-50 blocks on one source line)
        nc = rng.randrange(33, 46)
        m = macro_loop_program(nc)["t.c"].split("\n")
        extra = "\n".join(m[1:5]) + "\n"          # the #define and the function `big`
        t = files["t.c"].replace("int main(int argc, char **argv) {", extra + "int main(int argc, char **argv) {")
        files["t.c"] = t.replace("  int r = 0;\n", "  int r = 0;\n  r += big((x & 63) + 2);\n", 1)
    return files


# Hand-written program shapes that every run includes (the random generator rarely produces them):
# loops written on ONE source line with diverging arms (circuit counting), several functions on one line
# (macro-generated accessors; some never called), single-line switch / short-circuit / nested loops, early return.
SHAPES = [
    ({"t.c": """#include <stdlib.h>
int f(int n) { int a = 0, b = 0;
  for (int i = 0; i < n; i++) { if (i < 0) a++; else b++; }
  int j = 0; while (j < n) { if (j >= 0) b++; else a++; j++; }
  for (int i = 0; i < n; i++) { if (i & 1) a++; else b++; }
  return a + b; }
int main(int argc, char **argv) { return f(argc > 1 ? atoi(argv[1]) : 3) & 0; }
"""}, [["10"], ["5"]]),
    ({"t.c": """#include <stdlib.h>
#define GETTER(n) int get_##n(int x) { return x + 1; }
GETTER(width) GETTER(height) GETTER(depth)
int one(void) { return 1; } int two(void) { return 2; }
int two_b(void) { return 2; } int one_b(void) { return 1; }
int main(int argc, char **argv) { int r = get_width(argc) + get_width(2) + one() + one_b(); if (argc > 5) r += get_depth(1); return r & 0; }
"""}, [[], ["1"], ["2", "3"]]),
    ({"t.c": """#include <stdlib.h>
int g(int x, int y) { int r = 0;
  for (int i = 0; i < x; i++) { for (int k = 0; k < y; k++) { if (k == 1) continue; r++; } }
  switch (x & 3) { case 0: r++; break; case 1: r += 2; break; default: r += 3; }
  if (x > 2 && y > 1 || x == 0) r++;
  do { r--; if (r < -3) break; } while (r > 0);
  for (int i = 0; i < 100; i++) { if (i == x) return r; }
  return r + 1; }
int unused(int x) { for (int i = 0; i < x; i++) { if (i) x--; else x++; } return x; }
int main(int argc, char **argv) { return g(argc > 1 ? atoi(argv[1]) : 0, argc > 2 ? atoi(argv[2]) : 2) & 0; }
"""}, [["3", "4"], ["0"], ["200", "1"]]),
    # a goto state machine with all its labels on one line (interleaved circuits through one line)
    ({"t.c": """#include <stdio.h>
static int scan(const char *p) { int n = 0;
S0: if (!*p) goto out; if (*p++ == 'a') goto S3; S1: if (!*p) goto out; if (*p++ == 'b') goto S3; S2: if (!*p) goto out; n++; p++; goto S1; S3: if (!*p) goto out; if (*p++ == 'c') goto S2; else goto S0;
out: return n; }
int main(int argc, char **argv) { return scan(argc > 1 ? argv[1] : "acxbcyaabacxxbbcaacbcabcxyzacbbcacab") & 0; }
"""}, [[], ["abcabc"], ["ccccaaab"]]),
    # statements continued over several lines: one block whose line list returns to a line it already listed
    ({"t.c": """#include <stdlib.h>
static int add(int a, int b) {
  return a + b;
}
int main(int argc, char **argv) {
  int s = argc, k = 2;
  s = add(s,
          k) + add(k,
                   s);
  for (int i = 0; i < add(s,
                          k); i++) { s -= add(1,
                                              0); }
  return (s +
          k) & 0;
}
"""}, [[], ["1", "2"]]),
]


def macro_loop_program(ncases=34, mod=None):
    """a one-line macro that expands to a for loop around a large switch: 35-50 blocks on ONE source line inside a
    structured loop (each iteration is one of `ncases` simple cycles; the enumeration stays fast)"""
    mod = mod or ncases
    cases = " ".join("case %d: s %s %d; break;" % (k, ["+=", "-=", "^="][k % 3], k + 1) for k in range(ncases - 1))
    macro = "#define STEP(i, s) for (int i = 0; i < n; i++) { switch ((i * 7 + s) %% %d) { %s default: s += %d; } }" % (mod, cases, ncases)
    src = ("#include <stdlib.h>\n" + macro + "\n"
           "int big(int n) { int s = 0;\n"
           "  STEP(i, s)\n"
           "  return s; }\n"
           "int main(int argc, char **argv) { return big(argc > 1 ? atoi(argv[1]) : 3) & 0; }\n")
    return {"t.c": src}


SHAPES.append((macro_loop_program(34), [["200"], ["7"]]))


# whole loops on one source line whose circuits share arcs (shared arc must be counted once: get_cycle_count subtracts)
SHAPES.append(({"t.c": """#include <stdlib.h>
int skip(const char *s, int n) { int i = 0;
  while (i < n && s[i] == ' ') i++;
  return i; }
int mix(int n) { int a = 0, b = 0, c = 0, d = 0;
  for (int i = 0; i < n; i++) { if (i & 1) a++; else b++; if (i % 3) c++; else d++; }
  return a + 2 * b + 3 * c + 5 * d; }
int either(int n) { int i = 0, s = 0;
  while (i < n || (s & 3) != 3) { if (i % 4 == 1) s += 2; else s++; i++; }
  return s; }
int main(int argc, char **argv) { int n = argc > 1 ? atoi(argv[1]) : 3;
  return (skip("          x", n) + skip("   y", n + 5) + mix(n) + mix(2 * n + 1) + either(n)) & 0; }
"""}, [["10"], ["4"], ["7"]]))


def far_switch_program(ncases=80):
    """a function with more than 64 basic blocks: a switch with `ncases` one-line cases whose `break`s all jump to the
    block after the switch, which starts a line carried by several blocks (a one-line loop): that line is entered by
    arcs from blocks whose numbers are 64 and more below the numbers of the line's own blocks"""
    cases = "\n".join("    case %d: r += %d; break;" % (k, k % 7 + 1) for k in range(ncases))
    src = ("#include <stdlib.h>\n"
           "int far(int x) { int r = 0;\n"
           "  switch (x) {\n" + cases + "\n    default: r = 1;\n  }\n"
           "  for (int i = 0; i < 2; i++) { if (i & 1) r++; else r--; }\n"
           "  return r; }\n"
           "int main(int argc, char **argv) { int n = argc > 1 ? atoi(argv[1]) : 3, s = 0;\n"
           "  for (int k = 0; k < n; k++) s += far(k);\n"
           "  return s & 0; }\n")
    return {"t.c": src}


SHAPES.append((far_switch_program(80), [["85"], ["30"]]))


def arg_sets(rng, k):
    return [[str(rng.randrange(-3, 20)), str(rng.randrange(-3, 20))][:rng.randrange(0, 3)] for _ in range(k)]


# gcov format versions clang-14 can be told to write (-Xclang -coverage-version=) that llvm-cov-14 gcov reads AND that
# grcov reads as LLVM output (version < 80).  '800*' and later are written by clang in the GCC 8/9 record layout, which
# grcov decodes with its GCC rules (function end line filter; all-zero strings are an error): left out, see assumptions.
VERSIONS = ["408*", "407*", "402*", "409*", "406*", "404*"]


def build(dirpath, files, timeout=60, version=None):
    """compile (optionally with an explicit gcov format version); returns gcno bytes or raises"""
    os.makedirs(dirpath, exist_ok=True)
    for n, t in files.items():
        with open(os.path.join(dirpath, n), "w") as f:
            f.write(t)
    vopt = ["-Xclang", "-coverage-version=" + version] if version else []
    p = subprocess.run([CLANG, "--coverage", "-O0", "-w"] + vopt + ["t.c", "-o", "t"], cwd=dirpath, stdout=subprocess.PIPE, stderr=subprocess.PIPE, timeout=timeout)
    if p.returncode != 0:
        raise RuntimeError("clang failed: " + p.stderr.decode()[-500:])
    return open(os.path.join(dirpath, "t.gcno"), "rb").read()


def run_once(dirpath, args, timeout=10):
    p = subprocess.run(["./t"] + args, cwd=dirpath, stdout=subprocess.PIPE, stderr=subprocess.PIPE, timeout=timeout)
    return p.returncode


def profiles(dirpath, argsets):
    """one gcda per run (fresh file each), and the runtime-merged gcda of all runs (None when no run)"""
    gcda = os.path.join(dirpath, "t.gcda")
    singles = []
    for a in argsets:
        if os.path.exists(gcda):
            os.remove(gcda)
        run_once(dirpath, a)
        singles.append(open(gcda, "rb").read())
    if os.path.exists(gcda):
        os.remove(gcda)
    for a in argsets:
        run_once(dirpath, a)
    merged = open(gcda, "rb").read() if argsets else None
    return singles, merged


_line = re.compile(r"^\s*([^:]+):\s*(\d+):(.*)$")
_func = re.compile(r"^function (\S+) called (\d+) ")


def gcov_reference(dirpath, have_gcda):
    """run llvm-cov gcov -b -c and read every .gcov file:
       {source: {"lines": {n: count}, "funcs": {name: called}}}; a line is instrumented iff its marker is not '-'"""
    for f in os.listdir(dirpath):
        if f.endswith(".gcov"):
            os.remove(os.path.join(dirpath, f))
    p = subprocess.run([LLVM_COV, "gcov", "-b", "-c", "t.gcda" if have_gcda else "t.gcno"], cwd=dirpath, stdout=subprocess.PIPE, stderr=subprocess.PIPE, timeout=60)
    if p.returncode != 0:
        raise RuntimeError("llvm-cov failed: " + p.stderr.decode()[-500:])
    out = {}
    for f in sorted(os.listdir(dirpath)):
        if not f.endswith(".gcov"):
            continue
        src = None
        lines, funcs = {}, {}
        for l in open(os.path.join(dirpath, f), errors="replace").read().split("\n"):
            m = _func.match(l)
            if m:
                funcs[m.group(1)] = int(m.group(2))
                continue
            m = _line.match(l)
            if not m:
                continue
            mark, n, rest = m.group(1).strip(), int(m.group(2)), m.group(3)
            if n == 0:
                if rest.startswith("Source:"):
                    src = rest[len("Source:"):]
                continue
            if mark == "-":
                continue
            mark = mark.rstrip("*")
            if mark in ("#####", "=====", "$$$$$", "%%%%%"):
                cnt = 0
            else:
                cnt = int(mark)
            lines[n] = lines.get(n, 0) + cnt if n in lines else cnt
        out[src or f[:-5]] = {"lines": lines, "funcs": funcs}
    return out


def goto_program(rng, nlabels=None):
    """A state machine whose 4-8 labels all sit on ONE source line, joined by random forward/backward gotos guarded
    by conditions on a step counter (every label visit increments it and leaves when it exceeds a limit, so the
    program terminates).  Several blocks on one line connected by interleaved (non-reducible) cycles."""
    k = nlabels or rng.randrange(4, 9)
    limit = rng.randrange(5, 40)
    conds = ["(c % {0}) == {1}".format(m, rng.randrange(0, m)) for m in (2, 3, 4, 5)] + \
            ["(c & 2)", "c < n", "(c + n) & 1", "c > {0}".format(limit // 2), "n > 2"]
    parts = []
    for i in range(k):
        p = "L{0}: c++; if (c > {1}) goto END;".format(i, limit)
        for _ in range(rng.randrange(1, 3)):
            p += " if ({0}) goto L{1};".format(rng.choice(conds), rng.randrange(0, k))
        if rng.random() < 0.5:
            p += " s += {0};".format(rng.randrange(1, 5))
        parts.append(p)
    line = " ".join(parts) + " goto L{0};".format(rng.randrange(0, k))
    src = ("#include <stdlib.h>\n"
           "int g(int n) { int c = 0, s = 0;\n"
           "  %s\n"
           "END: return s; }\n"
           "int main(int argc, char **argv) { return g(argc > 1 ? atoi(argv[1]) : 3) & 0; }\n").replace("%s", line)
    return {"t.c": src}


# Witness of the known finding C08/single-line-goto-cycles: four labels on one line; with argument 2 llvm-cov-14 gcov
# reports line 3 executed 5 times, grcov 4 times (1 entry + 4 resp. 3 cycles: the circulation among the line's blocks
# decomposes into cycles in more than one way).
GOTO_WITNESS = ({"t.c": '#include <stdlib.h>\nint g(int n) { int c = 0, s = 0;\n  L0: c++; if (c > 11) goto END; if ((c % 5) == 4) goto L1; s += 4; L1: c++; if (c > 11) goto END; if ((c & 2)) goto L3; L2: c++; if (c > 11) goto END; if ((c & 2)) goto L0; if ((c % 5) == 4) goto L3; L3: c++; if (c > 11) goto END; if (c < n) goto L0; if ((c % 2) == 0) goto L1; goto L2;\nEND: return s; }\nint main(int argc, char **argv) { return g(argc > 1 ? atoi(argv[1]) : 3) & 0; }\n'}, [["2"]], 3)


def ambiguous_cycle_count(arcs, trials=60):
    """arcs: list of (src, dst, count) among the blocks of ONE line.  Decompose the flow into cycles greedily
    (find a cycle in the residual graph, subtract its minimum, repeat) with `trials` deterministic pseudo-random
    search orders; True when the total multiplicity differs between two decompositions, i.e. 'entries + cycles' is
    not determined by the arc counts (interleaved / non-reducible cycles)."""
    import random

    def total(seed):
        rnd = random.Random(seed)
        cap = {}
        for s_, d_, c_ in arcs:
            if c_ > 0 and s_ != d_:
                cap[(s_, d_)] = cap.get((s_, d_), 0) + c_
        tot = sum(c_ for s_, d_, c_ in arcs if s_ == d_)
        nodes = sorted({x for e in cap for x in e})
        while True:
            found = None
            order = nodes[:]
            if seed:
                rnd.shuffle(order)
            for start in order:
                stack, seen = [(start, [])], set()
                while stack and found is None:
                    v, path = stack.pop()
                    succ = sorted(d_ for (s_, d_), c_ in cap.items() if s_ == v and c_ > 0)
                    if seed:
                        rnd.shuffle(succ)
                    for d_ in succ:
                        if d_ == start:
                            found = path + [(v, d_)]
                            break
                        if d_ not in seen:
                            seen.add(d_)
                            stack.append((d_, path + [(v, d_)]))
                if found:
                    break
            if not found:
                return tot
            m = min(cap[e] for e in found)
            for e in found:
                cap[e] -= m
            tot += m
    return len({total(seed) for seed in range(trials)}) > 1


# ---- big-endian twins ---------------------------------------------------------------------------------------

def _swap_words(b):
    n = len(b) // 4
    import struct
    return struct.pack(">%dI" % n, *struct.unpack("<%dI" % n, b[:4 * n])) + b[4 * n:]


def to_big_endian_gcda(buf):
    """little-endian LLVM gcda -> the same file in big-endian byte order (a gcda holds 32-bit words only; a 64-bit
    counter stays low word first, each word byte-swapped)"""
    assert buf[:4] == b"adcg"
    return _swap_words(buf)


def to_big_endian_gcno(buf):
    """little-endian LLVM gcno (format < 8.0) -> big-endian: every 32-bit word byte-swapped, the bytes of string
    payloads kept in place (their length words swapped like any word)"""
    import struct
    assert buf[:4] == b"oncg"
    ws = list(struct.unpack("<%dI" % (len(buf) // 4), buf[:len(buf) // 4 * 4]))
    raw = [False] * len(ws)            # words that are string payload
    ver = 10 * (buf[7] - 48) + (buf[5] - 48)
    assert ver < 80, "GCC 8+ record layout not handled"

    def string_at(i):                  # marks the payload of the string whose length word is at i; returns next index
        n = ws[i]
        for k in range(i + 1, min(i + 1 + n, len(ws))):
            raw[k] = True
        return i + 1 + n
    i = 3
    while i + 1 < len(ws) and ws[i] != 0:
        tag, ln = ws[i], ws[i + 1]
        body = i + 2
        if tag == 0x01000000:
            j = body + 2 + (1 if ver >= 47 else 0)
            j = string_at(j)
            string_at(j)
        elif tag == 0x01450000:
            j = body + 1
            end = body + ln
            while j < end:
                if ws[j] != 0:
                    j += 1
                else:
                    if j + 1 >= len(ws) or ws[j + 1] == 0:
                        break
                    j = string_at(j + 1)
        i = body + ln
    out = bytearray()
    for k, w in enumerate(ws):
        out += buf[4 * k:4 * k + 4] if raw[k] else struct.pack(">I", w)
    return bytes(out) + buf[len(ws) * 4:]


def gcov_reference_bytes(dirpath, files, gcno, gcda):
    """llvm-cov gcov on given gcno/gcda bytes (e.g. a converted twin) next to the sources, in its own directory"""
    os.makedirs(dirpath, exist_ok=True)
    for n, t in files.items():
        with open(os.path.join(dirpath, n), "w") as f:
            f.write(t)
    with open(os.path.join(dirpath, "t.gcno"), "wb") as f:
        f.write(gcno)
    if gcda is not None:
        with open(os.path.join(dirpath, "t.gcda"), "wb") as f:
            f.write(gcda)
    return gcov_reference(dirpath, gcda is not None)
