"""Independent readers of grcov's report formats (C03, C13), written from the public descriptions of the formats:
lcov tracefile (geninfo(1)), Coveralls API JSON, covdir JSON, ActiveData-ETL JSON lines, Cobertura coverage-04.dtd,
the Markdown table, and the HTML pages (read as a browser/accessibility tool would: roles, ids, aria-labels, table cells).
Nothing here looks at grcov's writers; numbers are kept exact (int / Fraction / the printed text)."""
import json
import re
import xml.etree.ElementTree as ET
from fractions import Fraction
from html.parser import HTMLParser


class Num:
    """A printed non-integer number: keeps the text; .frac is the exact rational it denotes or None (NaN/inf/null)."""

    def __init__(self, text):
        self.text = text
        t = text.strip()
        self.frac = None
        if re.fullmatch(r"[-+]?(\d+\.?\d*|\.\d+)([eE][-+]?\d+)?", t):
            self.frac = Fraction(t)

    def finite(self):
        return self.frac is not None

    def __repr__(self):
        return "Num(%r)" % self.text


def _json(text):
    def const(s):            # NaN, Infinity, -Infinity
        return Num(s)
    return json.loads(text, parse_float=Num, parse_constant=const)


def as_num(v):
    """JSON value that should be a number -> Num (null becomes a non-finite Num('null'))."""
    if isinstance(v, Num):
        return v
    if v is None:
        return Num("null")
    if isinstance(v, bool):
        return Num(str(v))
    if isinstance(v, int):
        return Num(str(v))
    return Num(repr(v))


# ---------------------------------------------------------------- lcov
def read_lcov(data):
    """-> list of sections {name(bytes), lines{l:c}, brda[(l,block,branch,taken or None)], fn{name:start}, fnda{name:count},
    summ{LF,LH,BRF,BRH,FNF,FNH}} in file order."""
    out = []
    cur = None
    for raw in data.split(b"\n"):
        if raw.endswith(b"\r"):
            raw = raw[:-1]
        if raw == b"":
            continue
        if raw == b"end_of_record":
            if cur is None:
                raise ValueError("end_of_record without SF")
            out.append(cur)
            cur = None
            continue
        key, _, val = raw.partition(b":")
        if key == b"TN":
            continue
        if key == b"SF":
            cur = {"name": val, "lines": {}, "brda": [], "fn": {}, "fnda": {}, "summ": {}, "dup": []}
            continue
        if cur is None:
            raise ValueError("record outside a section: %r" % raw)
        if key == b"DA":
            f = val.split(b",")
            l, c = int(f[0]), int(f[1])
            if l in cur["lines"]:
                cur["dup"].append(("DA", l))
            cur["lines"][l] = cur["lines"].get(l, 0) + c
        elif key == b"BRDA":
            l, blk, br, tk = val.split(b",")
            cur["brda"].append((int(l), int(blk), int(br), None if tk == b"-" else int(tk)))
        elif key == b"FN":
            s, _, nm = val.partition(b",")
            if nm in cur["fn"]:
                cur["dup"].append(("FN", nm))
            cur["fn"][nm] = int(s)
        elif key == b"FNDA":
            c, _, nm = val.partition(b",")
            if nm in cur["fnda"]:
                cur["dup"].append(("FNDA", nm))
            cur["fnda"][nm] = cur["fnda"].get(nm, 0) + int(c)
        elif key in (b"LF", b"LH", b"BRF", b"BRH", b"FNF", b"FNH"):
            cur["summ"][key.decode()] = int(val)
        else:
            raise ValueError("unknown lcov record %r" % raw)
    if cur is not None:
        raise ValueError("missing end_of_record")
    return out


def branch_vectors(quads):
    """[(line, block, branch, taken-bool)] -> {line: [bool..]} ordered by (block, branch); also reports duplicates/gaps."""
    per = {}
    problems = []
    for l, blk, br, tk in quads:
        d = per.setdefault(l, {})
        if (blk, br) in d:
            problems.append("duplicate branch (%d,%d) on line %d" % (blk, br, l))
        d[(blk, br)] = tk
    out = {}
    for l, d in per.items():
        keys = sorted(d)
        if keys != [(0, i) for i in range(len(keys))]:
            problems.append("branch numbers of line %d are not 0..n-1 in block 0: %s" % (l, keys))
        out[l] = [d[k] for k in keys]
    return out, problems


# ---------------------------------------------------------------- coveralls
def read_coveralls(data):
    doc = _json(data.decode())
    files = []
    for sf in doc["source_files"]:
        cov = sf["coverage"]
        lines = {}
        for i, c in enumerate(cov):
            if c is None:
                continue
            if not isinstance(c, int) or isinstance(c, bool):
                raise ValueError("coverage entry %r" % (c,))
            lines[i + 1] = c
        b = sf.get("branches", [])
        if len(b) % 4:
            raise ValueError("branches length not a multiple of 4")
        quads = [(b[i], b[i + 1], b[i + 2], b[i + 3] > 0) for i in range(0, len(b), 4)]
        fns = None
        if "functions" in sf:
            fns = [(f["name"].encode(), f["start"], f["exec"]) for f in sf["functions"]]
        files.append({"name": sf["name"].encode(), "lines": lines, "quads": quads, "funcs": fns, "raw_cov": cov, "raw_br": b})
    return doc, files


# ---------------------------------------------------------------- covdir
def read_covdir(data):
    """-> root node; node = {name, total, covered, missed, percent(Num), children{name: node}} or file node with 'coverage'."""
    return _json(data.decode())


def covdir_files(node, prefix=()):
    """flatten: [(path components tuple, file node)], [(path components, dir node)]"""
    files, dirs = [], []
    if "children" in node:
        dirs.append((prefix, node))
        for nm, ch in node["children"].items():
            f, d = covdir_files(ch, prefix + (nm,))
            files += f
            dirs += d
    else:
        files.append((prefix, node))
    return files, dirs


# ---------------------------------------------------------------- ActiveData-ETL
def read_ade(data):
    recs = []
    for line in data.decode().split("\n"):
        if line.strip():
            recs.append(_json(line))
    return recs


# ---------------------------------------------------------------- files
def read_files(data):
    t = data.split(b"\n")
    if t and t[-1] == b"":
        t = t[:-1]
    return t


# ---------------------------------------------------------------- markdown
def read_markdown(data):
    """-> rows [{file, coverage(text), covered, total, ranges[(a,b)]}], total coverage text"""
    text = data.decode()
    lines = text.split("\n")
    rows = []
    total = None
    table = [l for l in lines if l.startswith("|")]
    if len(table) < 2:
        raise ValueError("no table")
    for l in table[2:]:
        cells = [c.strip() for c in l[1:-1].split(" | ")] if l.endswith("|") else None
        if cells is None or len(cells) != 4:
            # the file name may contain " | ": split from the right (the three last columns never do)
            body = l.strip()[1:-1]
            parts = body.rsplit(" | ", 3)
            if len(parts) != 4:
                raise ValueError("row %r" % l)
            cells = [c.strip() for c in parts]
        m = re.fullmatch(r"(\d+) / (\d+)", cells[2])
        if not m:
            raise ValueError("covered cell %r" % cells[2])
        ranges = []
        if cells[3]:
            for part in cells[3].split(", "):
                mm = re.fullmatch(r"(\d+)(?:-(\d+))?", part)
                if not mm:
                    raise ValueError("range %r" % part)
                a = int(mm.group(1))
                ranges.append((a, int(mm.group(2)) if mm.group(2) else a))
        rows.append({"file": cells[0].encode(), "coverage": cells[1], "covered": int(m.group(1)), "total": int(m.group(2)), "ranges": ranges})
    for l in lines:
        m = re.fullmatch(r"Total coverage: (.*)", l)
        if m:
            total = m.group(1)
    return rows, total


def pct_text(s):
    """'75.00%' -> Num('75.00')"""
    s = s.strip()
    if s.endswith("%"):
        s = s[:-1].strip()
    return Num(s)


# ---------------------------------------------------------------- cobertura
def read_cobertura(data):
    root = ET.fromstring(data.decode())
    if root.tag != "coverage":
        raise ValueError("root element " + root.tag)

    def rd_lines(el):
        out = []
        for ln in el.findall("line"):
            conds = None
            if ln.get("branch") == "true" or ln.find("conditions") is not None:
                conds = [(int(c.get("number")), c.get("type"), Num(c.get("coverage"))) for c in ln.find("conditions").findall("condition")]
            out.append({"number": int(ln.get("number")), "hits": int(ln.get("hits")), "conds": conds})
        return out

    def rates(el):
        return {k: Num(el.get(k)) for k in ("line-rate", "branch-rate") if el.get(k) is not None}
    doc = {"attrs": dict(root.attrib), "rates": rates(root), "packages": []}
    for p in root.find("packages").findall("package"):
        pk = {"name": p.get("name").encode(), "rates": rates(p), "classes": []}
        for c in p.find("classes").findall("class"):
            cl = {"name": c.get("name").encode(), "filename": c.get("filename").encode(), "rates": rates(c), "methods": [],
                  "lines": rd_lines(c.find("lines"))}
            for m in c.find("methods").findall("method"):
                cl["methods"].append({"name": m.get("name").encode(), "rates": rates(m), "lines": rd_lines(m.find("lines"))})
            pk["classes"].append(cl)
        doc["packages"].append(pk)
    return doc


# ---------------------------------------------------------------- html
class _Node:
    def __init__(self, tag, attrs, parent):
        self.tag, self.attrs, self.parent, self.kids = tag, dict(attrs), parent, []

    def text(self):
        return "".join(k if isinstance(k, str) else k.text() for k in self.kids)

    def walk(self):
        yield self
        for k in self.kids:
            if not isinstance(k, str):
                yield from k.walk()

    def find(self, tag=None, **attrs):
        return [n for n in self.walk() if (tag is None or n.tag == tag) and all(n.attrs.get(a.rstrip("_")) == v for a, v in attrs.items())]


class _Dom(HTMLParser):
    VOID = {"meta", "link", "br", "hr", "img", "input"}

    def __init__(self):
        super().__init__(convert_charrefs=True)
        self.root = _Node("#root", [], None)
        self.cur = self.root

    def handle_starttag(self, tag, attrs):
        n = _Node(tag, attrs, self.cur)
        self.cur.kids.append(n)
        if tag not in self.VOID:
            self.cur = n

    def handle_startendtag(self, tag, attrs):
        self.cur.kids.append(_Node(tag, attrs, self.cur))

    def handle_endtag(self, tag):
        n = self.cur
        while n is not None and n.tag != tag:
            n = n.parent
        if n is not None and n.parent is not None:
            self.cur = n.parent

    def handle_data(self, data):
        self.cur.kids.append(data)


def _dom(data):
    p = _Dom()
    p.feed(data.decode())
    p.close()
    return p.root


def _summary(root):
    """the level items: {'lines': (covered, total, Num pct), ...}"""
    out = {}
    for item in root.find("div", class_="level-item has-text-centered"):
        head = item.find("p", class_="heading")
        ab = item.find("abbr")
        if not head or not ab:
            continue
        m = re.fullmatch(r"\s*(\d+) / (\d+)\s*", ab[0].attrs.get("title", ""))
        if not m:
            raise ValueError("summary title %r" % ab[0].attrs.get("title"))
        out[head[0].text().strip().lower()] = (int(m.group(1)), int(m.group(2)), pct_text(ab[0].text()))
    return out


def read_html_file(data):
    """per-file page -> {summary, rows[(line number, label)]}; label: int count, 0, or None (no coverage)"""
    root = _dom(data)
    rows = []
    for r in root.find("div", role="row"):
        cells = [c for c in r.kids if not isinstance(c, str) and c.attrs.get("role") == "cell"]
        if len(cells) != 3:
            raise ValueError("row with %d cells" % len(cells))
        num = int(cells[0].attrs["id"])
        if cells[0].text().strip() != str(num):
            raise ValueError("line number cell text differs from its id")
        lab = cells[1].attrs.get("aria-label")
        shown = cells[1].text().strip()
        if lab == "no coverage":
            v = None
        else:
            v = int(lab)
        if shown not in ("", lab):
            raise ValueError("shown count %r differs from aria-label %r" % (shown, lab))
        rows.append((num, v, cells[2].text()))
    title = root.find("title")[0].text()
    return {"summary": _summary(root), "rows": rows, "title": title}


def read_html_index(data):
    """index page -> {kind, summary, items[{name, href, lines:(c,t,Num), funcs:(..), branches:(..)|None, progress Num}]}"""
    root = _dom(data)
    ths = root.find("thead")[0].find("th")
    kind = ths[0].text().strip()
    items = []
    for tr in root.find("tbody")[0].find("tr"):
        a = tr.find("th")[0].find("a")[0]
        tds = tr.find("td")
        prog = tds[0].find("progress")[0]

        def pair(td):
            m = re.fullmatch(r"\s*(\d+) / (\d+)\s*", td.text())
            if not m:
                raise ValueError("cell %r" % td.text())
            return int(m.group(1)), int(m.group(2))
        it = {"name": a.text(), "href": a.attrs.get("href"), "progress": Num(prog.attrs.get("value", "")), "progress_text": pct_text(prog.text()),
              "lines": pair(tds[2]) + (pct_text(tds[1].text()),), "funcs": pair(tds[4]) + (pct_text(tds[3].text()),),
              "branches": (pair(tds[6]) + (pct_text(tds[5].text()),)) if len(tds) >= 7 else None}
        items.append(it)
    crumbs = [li.text().strip() for li in root.find("nav", class_="breadcrumb is-right")[0].find("li")]
    return {"kind": kind, "summary": _summary(root), "items": items, "crumbs": crumbs}


def read_badge(data):
    m = re.search(r"<title>\s*coverage:\s*([^<]*)</title>", data.decode(), re.I)
    if not m:
        raise ValueError("badge title")
    return pct_text(m.group(1))


def read_coverage_json(data):
    d = json.loads(data.decode())
    return pct_text(d["message"]), d
